"""Core of the /verif check runner: builds, proof audit, correspondence runs, comparison,
shrinking, replay files, evidence, verdict.  Python 3 standard library only."""
import fcntl
import hashlib
import json
import os
import re
import shutil
import struct
import subprocess
import sys
import time
from concurrent.futures import ThreadPoolExecutor

ROOT = os.path.dirname(os.path.dirname(os.path.abspath(__file__)))
LEAN = os.path.join(ROOT, "lean")
HARN = os.path.join(ROOT, "harness")
DRIVER = os.path.join(LEAN, ".lake", "build", "bin", "driver")
HBIN = os.path.join(HARN, "target", "debug", "harness")
if os.environ.get("VERIF_COVERAGE_HBIN"):
    # self-audit only (tools/coverage.sh): an instrumented build of the same harness, to measure which lines of
    # /repo the correspondence streams execute; never set by a registered command
    HBIN = os.environ["VERIF_COVERAGE_HBIN"]
WORK = os.path.join(ROOT, ".work")
REPLAYS = os.path.join(ROOT, "replays")
EVID = os.path.join(ROOT, "evidence")
CORPUS = os.path.join(ROOT, "corpus")
KNOWN = os.path.join(ROOT, "KNOWN_FINDINGS.txt")

STD_AXIOMS = {"propext", "Classical.choice", "Quot.sound"}
FORBIDDEN = re.compile(r"\b(sorry|admit|native_decide|bv_decide|implemented_by)\b|^\s*axiom\s|unsafe\s|maxHeartbeats\s+0")

ENV = dict(os.environ)
ENV["CARGO_NET_OFFLINE"] = "true"
ENV.setdefault("CARGO_TERM_COLOR", "never")


class CheckError(Exception):
    """the check could not be carried out at all (tool missing, I/O): exit 3, never VIOLATION"""


class HarnessCrash(Exception):
    """the harness (which never stops on the unchanged tree: every call into the code is inside
    catch_unwind) stopped while driving the real code: the correspondence can no longer be established"""


def sh(cmd, cwd=None, timeout=3600, stdin=None):
    p = subprocess.run(cmd, cwd=cwd, env=ENV, stdin=stdin, stdout=subprocess.PIPE,
                       stderr=subprocess.STDOUT, timeout=timeout, text=True, errors="replace")
    return p.returncode, p.stdout


class Lock:
    def __enter__(self):
        os.makedirs(WORK, exist_ok=True)
        self.f = open(os.path.join(WORK, "lock"), "w")
        fcntl.flock(self.f, fcntl.LOCK_EX)
        return self

    def __exit__(self, *a):
        fcntl.flock(self.f, fcntl.LOCK_UN)
        self.f.close()


# ------------------------------------------------------------------ proof side

def strip_comments(src):
    src = re.sub(r"/-.*?-/", "", src, flags=re.S)
    return "\n".join(l.split("--")[0] for l in src.split("\n"))


def theorems_of(prop_id):
    """fully qualified names of the theorems stated in Props/<ID>.lean (namespace <ID>)"""
    path = os.path.join(LEAN, "AlatorVerif", "Props", f"{prop_id}.lean")
    src = strip_comments(open(path).read())
    return [f"{prop_id}.{m}" for m in re.findall(r"^\s*theorem\s+([A-Za-z_][\w'.]*)", src, flags=re.M)]


def lean_sources_of(prop_id):
    """transitive AlatorVerif.* imports of Props/<ID>.lean"""
    seen, todo = [], [f"AlatorVerif.Props.{prop_id}"]
    while todo:
        m = todo.pop()
        if m in seen:
            continue
        seen.append(m)
        p = os.path.join(LEAN, *m.split(".")) + ".lean"
        for imp in re.findall(r"^import\s+(AlatorVerif[\w.]*)", open(p).read(), flags=re.M):
            todo.append(imp)
    return seen


def proof_step(prop_id, tier, log):
    """build Props/<ID> and the driver, audit axioms and sources.
    returns dict(obligations, discharged, failures[list of str], theorems, modules, axioms)"""
    res = {"obligations": 0, "discharged": 0, "failures": [], "theorems": [], "modules": [], "axioms": {}}
    with Lock():
        rc, out = sh(["lake", "build", f"AlatorVerif.Props.{prop_id}", "driver"], cwd=LEAN)
    log.append(("lake build", rc, out[-4000:]))
    thms = theorems_of(prop_id)
    res["theorems"] = thms
    res["obligations"] = len(thms)
    if rc != 0:
        errs = [l for l in out.split("\n") if l.startswith("error")]
        res["failures"].append("lake build failed: " + " | ".join(errs[:5]))
        return res
    mods = lean_sources_of(prop_id)
    res["modules"] = mods
    # source audit
    for m in mods:
        p = os.path.join(LEAN, *m.split(".")) + ".lean"
        for n, l in enumerate(strip_comments(open(p).read()).split("\n"), 1):
            if FORBIDDEN.search(l):
                res["failures"].append(f"forbidden construct in {m}:{n}: {l.strip()[:80]}")
    # axiom audit
    adir = os.path.join(WORK, "audit")
    os.makedirs(adir, exist_ok=True)
    afile = os.path.join(adir, f"{prop_id}.lean")
    with open(afile, "w") as f:
        f.write(f"import AlatorVerif.Props.{prop_id}\n")
        for t in thms:
            f.write(f"#print axioms {t}\n")
    rc, out = sh(["lake", "env", "lean", afile], cwd=LEAN)
    log.append(("axiom audit", rc, out[-4000:]))
    if rc != 0:
        res["failures"].append("axiom audit did not run: " + out[-300:])
        return res
    flat = re.sub(r"\s+", " ", out)
    ok = 0
    for t in thms:
        m = re.search(r"'" + re.escape(t) + r"' (does not depend on any axioms|depends on axioms: \[([^\]]*)\])", flat)
        if not m:
            res["failures"].append(f"no axiom report for {t}")
            continue
        axs = set() if m.group(2) is None else {a.strip() for a in m.group(2).split(",") if a.strip()}
        res["axioms"][t] = sorted(axs)
        if axs <= STD_AXIOMS:
            ok += 1
        else:
            res["failures"].append(f"{t} depends on non-standard axioms {sorted(axs - STD_AXIOMS)}")
    if not [f for f in res["failures"] if f.startswith("forbidden")]:
        res["discharged"] = ok
    if tier == "thorough":
        rc, out = sh(["lake", "env", "leanchecker", f"AlatorVerif.Props.{prop_id}"], cwd=LEAN)
        log.append(("leanchecker", rc, out[-2000:]))
        if rc != 0:
            res["failures"].append("leanchecker rejected the compiled module: " + out[-300:])
            res["discharged"] = 0
    return res


# ------------------------------------------------------------------ implementation side

def harness_build(log):
    if shutil.which("cargo") is None:
        raise CheckError("cargo not found")
    with Lock():
        rc, out = sh(["cargo", "build"], cwd=HARN)
    log.append(("cargo build", rc, out[-6000:]))
    if rc != 0:
        errs = [l for l in out.split("\n") if l.startswith("error")]
        return "harness does not compile against /repo's working tree: " + " | ".join(errs[:6])
    return None


def fdec(tok):
    return struct.unpack("<d", struct.pack("<Q", int(tok[1:])))[0]


FLOAT_TOK = re.compile(r"^f\d+$")


def tok_eq(a, b, rtol):
    if a == b:
        return True
    if FLOAT_TOK.match(a) and FLOAT_TOK.match(b):
        x, y = fdec(a), fdec(b)
        if x != x and y != y:
            return True
        if x == y:
            return True
        if x != x or y != y or x in (float("inf"), float("-inf")) or y in (float("inf"), float("-inf")):
            return False
        return abs(x - y) <= rtol * max(abs(x), abs(y))
    return False


def sections(line):
    """'F 1 x ; A 0 ; B ...' -> {'F': [...], 'A': [...]} keeping order; a bare word is its own tag"""
    out = {}
    for sec in line.split(" ; "):
        t = sec.split()
        if t:
            out[t[0]] = t[1:]
    return out


# sections whose float tokens are results of sums and differences of the other tokens of the same section (money
# amounts, valuations) or of 1 + rate: binary64 error scales with the operands, not with a result that may cancel to
# nearly zero, so the tolerance is relative to the largest magnitude in the section (at least the floor given here)
SECTION_SCALE = {"V": 0.0, "G": 0.0, "TV": 0.0, "LV": 0.0, "H": 0.0, "P": 0.0, "HP": 0.0, "T": 0.0, "XL": 0.0,
                 "R": 1.0, "BW": 1.0, "RET": 1.0, "CF": 0.0, "VAL": 0.0, "NB": 0.0, "NP": 0.0, "FEE": 0.0}


def section_scale(k, a, b):
    if k not in SECTION_SCALE:
        return None
    m = SECTION_SCALE[k]
    for t in list(a) + list(b):
        if FLOAT_TOK.match(t):
            x = abs(fdec(t))
            if x == x and x != float("inf"):
                m = max(m, x)
    return m


NON_FINITE_BITS = 0x7FF0000000000000


def has_non_finite(line):
    for t in line.split():
        if FLOAT_TOK.match(t) and (int(t[1:]) & NON_FINITE_BITS) == NON_FINITE_BITS:
            return True
    return False


def line_eq(impl, model, tags, rtol, canon=None):
    """compare two output lines on the sections in `tags` (None = all). returns None or a reason"""
    si, sm = sections(impl), sections(model)
    if canon is not None:
        si, sm = canon(si), canon(sm)
    keys = list(dict.fromkeys(list(si.keys()) + list(sm.keys())))
    partial = "PARTIAL" in sm   # the model declares that it only answers for the sections it prints
    for k in keys:
        if tags is not None and k not in tags:
            continue
        if partial and (k not in sm or k == "PARTIAL"):
            continue
        if k not in si or k not in sm:
            return f"section {k} present on one side only"
        a, b = si[k], sm[k]
        if len(a) != len(b):
            return f"section {k}: {len(a)} vs {len(b)} tokens"
        sc = section_scale(k, a, b)
        for i, (x, y) in enumerate(zip(a, b)):
            if not tok_eq(x, y, rtol):
                if sc is not None and FLOAT_TOK.match(x) and FLOAT_TOK.match(y) and abs(fdec(x) - fdec(y)) <= rtol * sc:
                    continue
                return f"section {k} token {i}: impl {x} model {y}"
    return None


def split_cases(lines):
    cases, cur = [], []
    for l in lines:
        if l.startswith("RESET") or l == "reset":
            if cur:
                cases.append(cur)
            cur = [l]
        else:
            cur.append(l)
    if cur:
        cases.append(cur)
    return cases


QUICK_SCALE = 5


class Stream:
    """one correspondence stream: a component of the harness + a driver sub-command"""

    def __init__(self, component, flavour, quick, thorough, driver=None, driver_args=(), tags=None,
                 rtol=1e-9, seeds_thorough=8, corpus=None, canon=None, state_tags=(), exact=None):
        self.component, self.flavour = component, flavour
        # quick-tier volume: the per-stream figure times QUICK_SCALE (the checks run in seconds, so
        # the every-change tier can afford a few thousand cases per stream)
        self.quick, self.thorough = (quick if component == "sched" else quick * QUICK_SCALE), thorough
        self.driver = driver or component
        self.driver_args = list(driver_args)
        self.tags, self.rtol = tags, rtol
        self.seeds_thorough = seeds_thorough
        self.corpus = corpus or component
        self.canon = canon          # optional canonicalisation of a sections dict (e.g. sort fills)
        # sections compared only to validate the model's state against the code's (a difference there
        # breaks the correspondence but is not by itself an output the property speaks about)
        self.state_tags = set(state_tags)
        # driver sub-command of the same model at carrier `Rat` (exact arithmetic, an instance of the ordered-field
        # hypotheses of the theorems), run on the same annotated operations as a second correspondence
        self.exact = exact


def run_ops(stream, ops_path, wdir, tag):
    """harness run + driver on one ops file. returns (annot, impl, model, stats) line lists"""
    annot = os.path.join(wdir, f"{tag}.annot")
    impl = os.path.join(wdir, f"{tag}.impl")
    model = os.path.join(wdir, f"{tag}.model")
    # JuraV1::tick prints its book to stdout: the protocol never uses stdout, discard it
    p = subprocess.run([HBIN, stream.component, "run", ops_path, annot, impl], env=ENV,
                       stdout=subprocess.DEVNULL, stderr=subprocess.PIPE, text=True, errors="replace")
    if p.returncode != 0:
        raise HarnessCrash(f"the harness stopped while interpreting {os.path.basename(ops_path)} over the real code ({stream.component}): {p.stderr[-400:]}")
    with open(annot) as fin, open(model, "w") as fout:
        p = subprocess.run([DRIVER, stream.driver] + stream.driver_args, stdin=fin, stdout=fout,
                           stderr=subprocess.PIPE, text=True)
    if p.returncode != 0:
        raise CheckError(f"driver failed ({stream.driver}): {p.stderr[-500:]}")
    rd = lambda p_: [l.rstrip("\n") for l in open(p_)]
    stats = {}
    if os.path.exists(impl + ".stats"):
        stats = json.load(open(impl + ".stats"))
    ops_lines = [l.strip() for l in open(ops_path) if l.strip()]
    return (ops_lines, rd(annot)), rd(impl), rd(model), stats


def gen_ops(stream, seed, cases, tier, wdir, tag):
    ops = os.path.join(wdir, f"{tag}.ops")
    flavour = stream.flavour + ("-thorough" if tier == "thorough" else "")
    rc, out = sh([HBIN, stream.component, "gen", str(seed), str(cases), flavour, ops])
    if rc != 0:
        raise CheckError(f"harness gen failed ({stream.component}): {out[-500:]}")
    stats = {}
    if os.path.exists(ops + ".stats"):
        stats = json.load(open(ops + ".stats"))
    return ops, stats


class Failure:
    def __init__(self, kind, stream, ops, step, clause, detail, impl=None, model=None, origin=""):
        self.kind = kind            # 'monitor' | 'correspondence'
        self.stream = stream
        self.ops = ops              # un-annotated op lines of the case (starting with RESET)
        self.step = step
        self.clause = clause
        self.detail = detail
        self.impl, self.model = impl, model
        self.origin = origin

    def signature(self):
        return f"{self.stream.component}:{self.kind}:{self.clause}"


def strip_annot(line):
    """annotated op -> original op (annotations are appended after ' @ ' or ' A ')"""
    for sep in (" @ ", " A "):
        i = line.find(sep)
        if i >= 0:
            line = line[:i]
    return line


def examine(prop, stream, annot, impl, model, origin, collect):
    """compare and monitor all cases of one run. appends Failure objects to collect['fails']"""
    ops, annot = annot
    co, ca, ci, cm = split_cases(ops), split_cases(annot), split_cases(impl), split_cases(model)
    if not (len(co) == len(ca) == len(ci) == len(cm)):
        raise CheckError(f"case structure differs: {len(co)} {len(ca)} {len(ci)} {len(cm)}")
    for o, a, i, m in zip(co, ca, ci, cm):
        collect["cases"] += 1
        collect["evaluations"] += len(a) - 1
        h = hashlib.sha1("\n".join(a).encode()).hexdigest()
        fresh = h not in collect["seen"]
        collect["seen"].add(h)
        if fresh and prop.nontrivial(stream, a, i):
            collect["nontrivial"] += 1
        if len(collect["samples"]) < 3 and fresh and len(a) > 3:
            collect["samples"].append({"component": stream.component, "origin": origin,
                                       "ops": a[:12], "impl": i[:12]})
        if len(i) != len(a) or len(m) != len(a):
            collect["fails"].append(Failure("correspondence", stream, list(o), 0,
                                            "line-count", f"{len(a)} ops, {len(i)} impl lines, {len(m)} model lines", origin=origin))
            continue
        # (B) monitors on the implementation's own trace
        try:
            for (step, clause, detail) in prop.monitor(stream, a, i):
                collect["fails"].append(Failure("monitor", stream, list(o), step, clause, detail,
                                                impl=i[step] if step < len(i) else None, origin=origin))
                break
        except Exception as e:      # a trace the monitor cannot read (changed output shape): reported, never swallowed
            if type(e).__name__ == "NonFinite":
                # an infinite or NaN amount (e.g. a size at a net price of exactly 0): the exact-rational clauses do not
                # apply from there on; the correspondence below still compares the whole trace with the model's
                collect.setdefault("run_stats", {})["monitor_stopped_at_a_non_finite_amount"] = collect.get("run_stats", {}).get("monitor_stopped_at_a_non_finite_amount", 0) + 1
                raise_it = False
            else:
                raise_it = True
            if not raise_it:
                pass
            else:
              import traceback
              tb = traceback.format_exc().strip().split("\n")
              collect["fails"].append(Failure("correspondence", stream, list(o), 0, "monitor-cannot-read-the-trace",
                                              f"{type(e).__name__}: {e} ({tb[-3].strip() if len(tb) > 2 else ''})", origin=origin))
        # (A) correspondence: first difference on the property's alphabet; failing that, first
        # difference on the state sections (model validation only)
        k1 = k2 = None
        for k in range(len(a)):
            if has_non_finite(i[k]) and has_non_finite(m[k]):
                # both sides have left the finite numbers (an infinite order at a net price of exactly 0, then NaN): from
                # here the two languages' NaN conventions (`f64::max` ignores a NaN, comparisons are all false) decide, no
                # property speaks about it, and the comparison of this case ends
                collect.setdefault("run_stats", {})["comparison_ended_at_a_non_finite_amount"] = collect.get("run_stats", {}).get("comparison_ended_at_a_non_finite_amount", 0) + 1
                break
            why = line_eq(i[k], m[k], stream.tags, stream.rtol, stream.canon)
            if why is not None:
                k1 = (k, why)
                break
            if stream.state_tags and k2 is None:
                why = line_eq(i[k], m[k], stream.state_tags, stream.rtol, None)
                if why is not None:
                    k2 = (k, why)
        if k1 is not None:
            collect["fails"].append(Failure("correspondence", stream, list(o), k1[0],
                                            "model-vs-impl", k1[1], impl=i[k1[0]], model=m[k1[0]], origin=origin))
        elif k2 is not None:
            collect["fails"].append(Failure("correspondence", stream, list(o), k2[0],
                                            "model-vs-impl-state", k2[1], impl=i[k2[0]], model=m[k2[0]], origin=origin))



Q_SUB = re.compile(r"(?<![A-Za-z0-9])q(-?\d+)/(\d+)(?![0-9])")


def q_to_f(line):
    """`q<num>/<den>` (exact rationals printed by the Rat instance of a driver, also inside composite tokens such as
    `T:q2/1:0:tp`) -> the nearest binary64 token"""
    from fractions import Fraction

    def one(m):
        try:
            x = float(Fraction(int(m.group(1)), int(m.group(2))))
        except OverflowError:
            x = float("inf") if int(m.group(1)) > 0 else float("-inf")
        if x == 0:
            x = 0.0
        return "f" + str(struct.unpack("<Q", struct.pack("<d", x))[0])
    return Q_SUB.sub(one, line)


def exact_step(stream, annot_lines, impl, model, wdir, tag, collect, tier="quick"):
    """second correspondence: the same model definitions instantiated at `Rat` — a carrier that satisfies the hypotheses the
    theorems are proved under — against the implementation, step by step, on the property's alphabet and the state sections.
    Exact results are rounded to binary64 once, at the comparison. A step where the binary64 instance agrees with the code
    and the exact instance does not is where rounding decides (a floor or a comparison at a boundary): it is counted and
    sampled in the evidence, never reported as a violation (the theorems are about exact arithmetic, DESIGN §4)."""
    exact = os.path.join(wdir, f"{tag}.exact")
    # quick tier: the first third of the cases (exact rationals are slower than binary64); thorough: all of them
    ca_all = split_cases(annot_lines)
    ncase = len(ca_all) if tier == "thorough" else max(1, len(ca_all) // 3)
    nlines = sum(len(c) for c in ca_all[:ncase])
    annot_lines, impl, model = annot_lines[:nlines], impl[:nlines], model[:nlines]
    annot = os.path.join(wdir, f"{tag}.annot-exact")
    with open(annot, "w") as f:
        f.write("\n".join(annot_lines) + "\n")
    with open(annot) as fin, open(exact, "w") as fout:
        p = subprocess.run([DRIVER, stream.exact] + stream.driver_args, stdin=fin, stdout=fout, stderr=subprocess.PIPE, text=True)
    if p.returncode != 0:
        raise CheckError(f"driver failed ({stream.exact}): {p.stderr[-500:]}")
    ex = [q_to_f(l.rstrip("\n")) for l in open(exact)]
    ca, ci, cm, ce = split_cases(annot_lines), split_cases(impl), split_cases(model), split_cases(ex)
    st = collect.setdefault("exact", {"driver": {}, "cases": 0, "cases_agreeing_throughout": 0, "steps": 0, "steps_agreeing": 0,
                                      "cases_where_rounding_decides": 0, "cases_where_both_instances_differ": 0, "samples": []})
    st["driver"][stream.exact] = st["driver"].get(stream.exact, 0) + 1
    if not (len(ca) == len(ci) == len(cm) == len(ce)):
        raise CheckError(f"exact run: case structure differs: {len(ca)} {len(ci)} {len(cm)} {len(ce)}")
    tags = None if stream.tags is None else set(stream.tags) | set(stream.state_tags)
    for a, i, m, e in zip(ca, ci, cm, ce):
        if not (len(a) == len(i) == len(m) == len(e)):
            continue
        st["cases"] += 1
        bad = None
        for k in range(len(a)):
            if has_non_finite(i[k]):
                break
            st["steps"] += 1
            why = line_eq(i[k], e[k], tags, stream.rtol, stream.canon)
            if why is not None:
                bad = (k, why)
                break
            st["steps_agreeing"] += 1
        if bad is None:
            st["cases_agreeing_throughout"] += 1
            continue
        k, why = bad
        float_agrees = line_eq(i[k], m[k], tags, stream.rtol, stream.canon) is None
        st["cases_where_rounding_decides" if float_agrees else "cases_where_both_instances_differ"] += 1
        # is the first difference a number (a cancelled balance, a last bit) or a discrete output (an event, a share count after floor)?
        numeric = bool(re.search(r"impl f\d+ model f\d+$", why))
        key = "first_difference_is_a_number" if numeric else "first_difference_is_discrete"
        st[key] = st.get(key, 0) + 1
        if len(st["samples"]) < 3:
            st["samples"].append({"component": stream.component, "step": k, "why": why, "op": a[k][:300],
                                  "binary64_instance_agrees_with_the_code": float_agrees})


def still_fails(prop, stream, ops_lines, wdir, want_kind, want_clause):
    p = os.path.join(wdir, "shrink.ops")
    with open(p, "w") as f:
        f.write("\n".join(ops_lines) + "\n")
    try:
        annot, impl, model, _ = run_ops(stream, p, wdir, "shrink")
    except (CheckError, HarnessCrash):
        return None
    c = new_collect()
    try:
        examine(prop, stream, annot, impl, model, "shrink", c)
    except CheckError:
        return None
    for f in c["fails"]:
        if f.kind == want_kind and f.clause == want_clause:
            return f
    return None


def shrink(prop, fail, wdir, budget=150):
    """delta-debug the op list of a failing case (keeps the RESET line and the failure kind)"""
    if getattr(fail, "no_shrink", False):
        return fail
    ops = list(fail.ops)
    best = fail
    # first cut everything after the failing step
    if fail.step + 1 < len(ops):
        f2 = still_fails(prop, fail.stream, ops[:fail.step + 1], wdir, fail.kind, fail.clause)
        budget -= 1
        if f2:
            ops, best = ops[:fail.step + 1], f2
    n = 2
    while len(ops) > 2 and budget > 0:
        chunk = max(1, (len(ops) - 1) // n)
        removed = False
        k = 1
        while k < len(ops) and budget > 0:
            cand = ops[:k] + ops[k + chunk:]
            budget -= 1
            f2 = still_fails(prop, fail.stream, cand, wdir, fail.kind, fail.clause) if len(cand) > 1 else None
            if f2:
                ops, best, removed = cand, f2, True
            else:
                k += chunk
        if not removed:
            if chunk == 1:
                break
            n = min(n * 2, len(ops) - 1)
    best.ops = ops
    return best


def new_collect():
    return {"cases": 0, "evaluations": 0, "nontrivial": 0, "seen": set(), "samples": [], "fails": [],
            "gen_stats": {}, "run_stats": {}}


def merge_stats(dst, src):
    for k, v in src.items():
        if k.startswith("max"):
            dst[k] = max(dst.get(k, 0), v)
        else:
            dst[k] = dst.get(k, 0) + v


def correspondence_step(prop, tier, seed, wdir, log):
    collect = new_collect()
    for si, stream in enumerate(prop.streams):
        runs = []
        # corpus first
        # (the thorough tier also runs corpus-thorough/: cases that take minutes, e.g. one batch of 70 000 orders)
        for cname in (["corpus", "corpus-thorough"] if tier == "thorough" else ["corpus"]):
            cdir = os.path.join(ROOT, cname, stream.corpus)
            if os.path.isdir(cdir):
                for fn in sorted(os.listdir(cdir)):
                    if fn.endswith(".ops"):
                        annot, impl, model, st = run_ops(stream, os.path.join(cdir, fn), wdir, f"s{si}-corpus")
                        merge_stats(collect["run_stats"], st)
                        examine(prop, stream, annot, impl, model, f"{cname}/{stream.corpus}/{fn}", collect)
        if tier == "thorough":
            jobs = [(seed * 1000 + 17 * j, stream.thorough // stream.seeds_thorough + 1) for j in range(stream.seeds_thorough)]
        else:
            jobs = [(seed, stream.quick)]

        def one(job):
            sd, n = job
            tag = f"s{si}-{sd}"
            ops, gst = gen_ops(stream, sd, n, tier, wdir, tag)
            annot, impl, model, rst = run_ops(stream, ops, wdir, tag)
            return sd, gst, rst, annot, impl, model

        with ThreadPoolExecutor(max_workers=min(16, len(jobs))) as ex:
            for sd, gst, rst, annot, impl, model in ex.map(one, jobs):
                merge_stats(collect["gen_stats"], {f"{stream.component}.{k}": v for k, v in gst.items()})
                merge_stats(collect["run_stats"], {f"{stream.component}.{k}": v for k, v in rst.items()})
                examine(prop, stream, annot, impl, model, f"gen seed={sd} flavour={stream.flavour}", collect)
                if stream.exact:
                    exact_step(stream, annot[1], impl, model, wdir, f"s{si}-{sd}", collect, tier)
                runs.append((annot[0], annot[1], impl))
        if hasattr(prop, "extra"):
            prop.extra(stream, runs, wdir, tier, collect)
    return collect


# ------------------------------------------------------------------ known findings, replay, evidence

def known_findings():
    opens, fixed = [], []
    if os.path.exists(KNOWN):
        for l in open(KNOWN):
            l = l.strip()
            if l.startswith("open:"):
                m = re.match(r"open:\s+property=(\S+)\s+id=(\S+)\s+match=(\S+)\s+(.*)", l)
                if m:
                    opens.append({"property": m.group(1), "id": m.group(2), "match": m.group(3), "what": m.group(4)})
            elif l.startswith("fixed:"):
                fixed.append(l)
    return opens, fixed


def write_replay(prop_id, seed, n, payload):
    os.makedirs(REPLAYS, exist_ok=True)
    p = os.path.join(REPLAYS, f"{prop_id}-{seed}-{n}.json")
    with open(p, "w") as f:
        json.dump(payload, f, indent=1)
    return p


def write_evidence(prop_id, ev):
    os.makedirs(EVID, exist_ok=True)
    with open(os.path.join(EVID, f"{prop_id}.json"), "w") as f:
        json.dump(ev, f, indent=1, sort_keys=True)
        f.write("\n")
